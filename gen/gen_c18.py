"""C18 — write-progress notifications count body bytes only, for every ack pattern."""
import itertools
from vlib import Rng
import sockgen as G

RULE = ("family socklate: a bytesWritten listener that subscribes before / between / after partial acknowledgements of the head or never; family stream: chunks written from inside the bytesWritten notification over a real loopback connection; " "status codes of 1..5 digits and empty / long reasons among the header sets; " "family sock: header sets of varying block length x body write sequences x acknowledgement compositions: all compositions of "
        "small totals, and compositions aimed at H-1, H, H+1 (H = header block length), interleaved with later writes; "
        "non-trivial = distinct case")
ASSUMPTIONS = ["acknowledgements never exceed the bytes written so far (what a transport can do)"]
TRUSTED = ["SimTcp::ack(n) stands in for QTcpSocket::bytesWritten"]


def compositions(n, maxparts):
    if n == 0:
        yield []
        return
    for first in range(1, n + 1):
        if maxparts == 1 and first != n:
            continue
        for rest in compositions(n - first, maxparts - 1 if maxparts else 0):
            yield [first] + rest


def cases(tier, seed, ctx=None):
    rng = Rng(seed)
    ver = ctx["probe"]("version", [[]])[0][0]
    env = [ver, []]
    hdrsets = [[], [G.SetHeader(b"A", b"1")], [G.SetHeader(b"Content-Length", b"5"), G.SetHeader(b"X", b"yy")],
               [G.SetStatus(404, b"N")], [G.SetHeaders([(b"S", b"a"), (b"S", b"b")])],
               # the length of the header block depends on every part of it: status codes of 1, 2, 4 and 5 digits, long and empty reasons
               [G.SetStatus(7, b"SEVEN")], [G.SetStatus(99)], [G.SetStatus(1000, b"")], [G.SetStatus(12345, b"A LONG REASON PHRASE " * 3)],
               [G.SetStatus(0)], [G.SetStatus(200, b"")],
               # header blocks whose byte length differs from their length in characters
               [G.SetHeader(b"Content-Disposition", "attachment; filename=\"r\u00e9sum\u00e9 \u2013 M\u00fcller.pdf\"".encode())], [G.SetStatus(200, "\u041e\u041a".encode())],
               [G.SetHeader("X-\u00e9".encode(), b"1"), G.SetHeader(b"A", "\u4e2d\u6587".encode())]]
    # H for "HTTP/1.0 200 OK\r\n\r\n" is 19
    for hs in hdrsets:
        head_ops = [G.Construct] + [G.App(a) for a in hs]
        probe = ctx["probe"]("sock", [[G.NOPOL, head_ops + [G.App(G.WriteHeaders)], env]])[0]
        H = sum(len(e[1]) for e in probe if e[0] == 5)
        bodies = [[b""], [b"hello"], [b"ab", b"cde"], [b"x"] * 3]
        for chunks in bodies:
            total = H + sum(len(c) for c in chunks)
            # acks aimed at the header boundary, written before / between body writes
            for first in (H - 1, H, H + 1, 1, H + 2, total):
                if first <= 0:
                    continue
                for explicit in (True, False):
                    ops = list(head_ops)
                    written = 0
                    if explicit:
                        ops.append(G.App(G.WriteHeaders))
                        written = H
                    acked = 0
                    plan = [first]
                    for i, c in enumerate(chunks):
                        ops.append(G.App(G.Write(c)))
                        written = H + sum(len(x) for x in chunks[: i + 1])
                        while plan and acked + plan[0] <= written:
                            ops.append(G.Ack(plan[0]))
                            acked += plan.pop(0)
                        if rng.chance(1, 2) and acked < written:
                            k = rng.range(1, written - acked)
                            ops.append(G.Ack(k))
                            acked += k
                    rest = total - acked
                    for part in rng.choice(list(compositions(rest, 3))) if rest > 0 else []:
                        ops.append(G.Ack(part))
                    if rng.chance(1, 4):
                        ops.append(G.App(G.Close))
                        ops.append(G.Ack(1))
                    yield ("sock", [G.NOPOL, ops, env, [18]], "boundary")
        # all compositions of the total for a tiny response
        ops0 = head_ops + [G.App(G.WriteHeaders), G.App(G.Write(b"abc"))]
        total = H + 3
        if tier != "quick" or hs == []:
            lim = 3 if tier == "quick" else 4
            for comp in compositions(total, lim):
                yield ("sock", [G.NOPOL, ops0 + [G.Ack(k) for k in comp], env, [18]], "all-compositions")
    # random interleavings: skeletons first, one batched dry run to learn the write offsets, then sized acks
    n = 1500 if tier == "quick" else 20000
    skels = []
    for _ in range(n):
        ops = [G.Construct] + [G.App(a) for a in rng.choice(hdrsets)]
        started = False
        for _ in range(rng.range(1, 8)):
            if rng.chance(1, 2) or not started:
                if not started and rng.chance(1, 3):
                    ops.append(G.App(G.WriteHeaders))
                else:
                    ops.append(G.App(G.Write(rng.bytes(rng.range(0, 30)))))
                started = True
            else:
                ops.append(G.Ack(0))  # placeholder, sized below
        skels.append(ops)
    logs = ctx["probe"]("sock", [[G.NOPOL, [o for o in ops if o[0] != 1], env] for ops in skels])
    for ops, log in zip(skels, logs):
        cum = {}
        tot = 0
        cur = -1
        for e in log:
            if e[0] == 20:
                cur = e[1]
            elif e[0] == 5:
                tot += len(e[1])
            cum[cur] = tot
        out = []
        di = -1
        acked = 0
        for o in ops:
            if o[0] == 1:
                avail_now = cum.get(di, 0) - acked
                if avail_now > 0:
                    k = rng.choice([1, avail_now, rng.range(1, avail_now)])
                    out.append(G.Ack(k))
                    acked += k
            else:
                di += 1
                out.append(o)
        rest = tot - acked
        while rest > 0 and rng.chance(4, 5):
            k = rng.range(1, rest)
            out.append(G.Ack(k))
            rest -= k
        yield ("sock", [G.NOPOL, out, env, [18]], "random")

    # responses written from inside the request notification: a request head (with headers a server might act on by itself, body
    # still outstanding or complete) arrives, the application answers synchronously from headersParsed / readyRead, everything is
    # acknowledged: the notifications still count the body bytes of the response and nothing else
    nreq = 150 if tier == "quick" else 2500
    reqs = []
    for _ in range(nreq):
        q = G.valid_request(rng, body_len=rng.choice([0, 3, 10]))
        extra = rng.choice(G.SEMANTIC)
        head = q["head"] + b"\r\n" + extra[0] + b": " + extra[1] + b"\r\n\r\n"
        reqs.append((q, head))
    rver, rtab = G.oracle(ctx, [q["raw"] for q, _ in reqs])
    late_reqs = []
    for q, head in reqs:
        body = rng.bytes(max(0, q["cl"]))
        sent = rng.choice([0, 0, len(body)])                 # the body is still outstanding, or came with the head
        resp = [G.Write(rng.bytes(rng.choice([1, 30, 300]))) for _ in range(rng.range(1, 3))]
        if rng.chance(1, 3):
            resp.insert(0, G.WriteHeaders)
        pol = rng.choice([[resp, [], []], [[], resp, []]]) if sent else [resp, [], []]
        ops = [G.Construct, G.Feed(head + body[:sent]), G.Turn] + [G.Ack(rng.choice([1, 19, 25, 40])) for _ in range(rng.range(0, 3))]
        if sent == len(body) and q["cl"] >= 0 and rng.chance(1, 2):
            # the client sends more after its complete request (a stray CRLF, a pipelined request) while the response is on its way
            ops.insert(rng.range(2, len(ops)), G.Feed(rng.choice([b"\r\n", b"GET /next HTTP/1.1\r\n\r\n", b"x"])))
        skel = [pol, ops, G.env_for(rver, rtab, [q["raw"]])]
        late_reqs.append(skel)
    dry = ctx["probe"]("sock", [[pol, [o for o in ops if o[0] != 1], env2] for pol, ops, env2 in late_reqs])
    for (pol, ops, env2), log in zip(late_reqs, dry):
        tot = sum(len(e[1]) for e in log if e[0] == 5)
        out, acked = [], 0
        for o in ops:
            if o[0] == 1:
                k = min(o[1], tot - acked)
                if k > 0:
                    out.append(G.Ack(k)); acked += k
            else:
                out.append(o)
        if tot - acked > 0:
            out.append(G.Ack(tot - acked))
        yield ("sock", [pol, out, env2, [18]], "answered-from-the-request-notification")

    # a listener that subscribes late: after the head (or part of the response) has already been acknowledged, before it, between
    # partial acknowledgements, or never
    late_skels = []
    for j in range(600 if tier == "quick" else 6000):
        hs = rng.choice(hdrsets)
        probe_ops = [G.Construct] + [G.App(a) for a in hs]
        ops = list(probe_ops)
        written = 0
        acked = 0
        Hs = None
        listen_at = rng.below(6)
        steps = rng.range(2, 7)
        for i in range(steps):
            if i == listen_at:
                ops.append(G.App(G.Listen))
            k = rng.below(4)
            if k == 0 and written == 0:
                ops.append(G.App(G.WriteHeaders))
                written = -1            # unknown until the dry run: acknowledge through placeholders
            elif k <= 1:
                ops.append(G.App(G.Write(rng.bytes(rng.choice([0, 1, 5, 30, 300])))))
                written = -1
            elif k == 2:
                ops.append(G.Ack(0))   # placeholder
            else:
                ops.append(G.Turn)
        ops.append(G.Ack(0))
        ops.append(G.Ack(0))
        late_skels.append(ops)
    logs = ctx["probe"]("sock", [[G.NOPOL, [o for o in ops if o[0] != 1], env] for ops in late_skels])
    for ops, log in zip(late_skels, logs):
        cum = {}
        tot = 0
        cur = -1
        for e in log:
            if e[0] == 20:
                cur = e[1]
            elif e[0] == 5:
                tot += len(e[1])
            cum[cur] = tot
        Hlen = 0
        for e in log:
            if e[0] == 5:
                Hlen = len(e[1]) if Hlen == 0 else Hlen
                break
        out = []
        di = -1
        acked = 0
        nacks = sum(1 for o in ops if o[0] == 1)
        seen = 0
        for o in ops:
            if o[0] == 1:
                seen += 1
                avail_now = cum.get(di, 0) - acked
                if seen == nacks:
                    k = avail_now                      # the last one acknowledges everything
                elif avail_now > 0:
                    # aim at the header boundary as well as anywhere
                    cands = [1, avail_now, rng.range(1, avail_now)]
                    for t in (Hlen - 1, Hlen, Hlen + 1):
                        if 0 < t - acked <= avail_now:
                            cands.append(t - acked)
                    k = rng.choice(cands)
                else:
                    k = 0
                if k > 0:
                    out.append(G.Ack(k))
                    acked += k
            else:
                di += 1
                out.append(o)
        yield ("socklate", [G.NOPOL, out, env, [18]], "late-listener")

    # streaming with back-pressure over a REAL loopback connection: the next chunk is written from inside the notification
    # (or one turn later); judged by the statement alone
    for j in range(24 if tier == "quick" else 300):
        k = rng.range(1, 5)
        chunks = [rng.bytes(rng.choice([1, 1, 7, 100, 4096, 70000] if j % 6 == 0 else [1, 2, 7, 30, 100])) for _ in range(k)]
        if rng.chance(1, 8):
            chunks.insert(rng.below(len(chunks)), b"")
        if chunks[-1] == b"" or all(len(x) == 0 for x in chunks):
            chunks.append(b"end")
        if b"" in chunks[1:]:
            chunks = [x for x in chunks if x] or [b"z"]      # an empty chunk in the middle reports nothing and would end the chain
        yield ("stream", [chunks, rng.below(2), rng.below(2)], "stream-backpressure")

    # over a real connection, TLS and plain: (a) the application waits for the write-progress notifications of a 3000-byte body
    # before it closes - they add up to 3000; (b) a 12 MiB answer to a client that reads slowly through a small window - the server's thread keeps returning
    # to its event loop meanwhile
    for j in range(2 if tier == "quick" else 10):
        yield ("tlsraw", [b"GET /notify HTTP/1.1\r\nHost: h\r\n\r\n", 0, 0, [], 1, 0, 0], "%s-notifications-before-close" % 'tlsraw')
    yield ("tlsraw", [b"GET /bighuge HTTP/1.1\r\nHost: h\r\n\r\n", 0, 0, [], 1, 0, 6], "%s-slow-reader" % 'tlsraw')
    # a streaming producer over a real connection: a burst of large blocks written back to back (more than 64 KiB pending), topped up
    # from inside the write-progress notification: the blocks arrive in the order of the write calls (family stream)
    for j in range(3 if tier == "quick" else 20):
        nblocks = rng.choice([8, 24, 64])
        chunks = [bytes([65 + (k % 26)]) * (20000 if j == 0 else rng.choice([4096, 20000])) for k in range(nblocks)]
        yield ("stream", [chunks, j % 2, rng.below(2), 12 if j == 0 else rng.choice([3, 6, 12])], "stream-burst-topped-up")
