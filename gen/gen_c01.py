"""C01 — request head accepted iff well-formed; parsed fields exact."""
import itertools
from vlib import Rng
import sockgen as G

RULE = ("families reqhead (Parser::parseRequestHeaders on a head), bytesprim (toLower/trimmed on all 256 bytes + strings), "
        "tolonglong, split, and sock (Socket accessors at headersParsed over SimTcp, with the generator's record of what the client sent); "
        "near-miss heads of the grammar (every method +-1 char, versions, spaces, colons, CR/LF placement), structured random heads "
        "(0-5 headers, case variants, duplicates, blanks), random bytes; non-trivial = distinct case")
ASSUMPTIONS = ["targets outside the C01 class: only accept/reject consistency with QUrl::isValid (tabulated by calling QUrl directly)",
               "QUrl percent-decoding on the class is modelled by pct_decode and tied by this correspondence run"]
TRUSTED = ["modelled, not verified: QByteArray::{indexOf,mid,left,trimmed,toLower,toLongLong}, QMultiMap ordering, QUrl on the C01 class"]


def cases(tier, seed, ctx=None):
    rng = Rng(seed)
    # primitives
    for b in range(256):
        yield ("bytesprim", [bytes([b])], "prim-byte")
        yield ("bytesprim", [b" " + bytes([b]) + b"A\xc0 "], "prim-byte")
    for s in [b"", b" ", b"\t a \r\n", b"\x0b\x0cq\x0b", b"Content-LENGTH", b"\xc0\xd7\xde\xdf\xff\xf7", b"\x00 a \x00", b" \xa0x\xa0 ", b"\x85x"]:
        yield ("bytesprim", [s], "prim-str")
    alpha = b"09+- a\x00"
    for ln in range(0, 5):
        for tup in itertools.product(alpha, repeat=ln):
            yield ("tolonglong", [bytes(tup)], "tolonglong-all")
    for s in [b"9223372036854775807", b"9223372036854775808", b"-9223372036854775808", b"-9223372036854775809", b"2147483647", b"2147483648",
              b"-2147483648", b"-2147483649", b"000000000000000000000012", b"1e3", b"0x10", b"1.0", b"12\t", b"\n12", b"1 2", b"++1", b"+-1", b"\xb2"]:
        yield ("tolonglong", [s], "tolonglong-edge")
    for d in [b"", b"a", b"a:b", b":", b"::", b"a::b:", b"a\r\nb", b"\r\n", b"\r\n\r\n", b"a\r\r\nb", b"a\r\n\nb", b"a b c d", b"  ", b"abcabc"]:
        for delim in [b":", b" ", b"\r\n", b"ab", b"bc"]:
            for m in (0, 1, 2, 3):
                yield ("split", [d, delim, m], "split")
    # heads
    for h in G.malformed_heads(rng, 600 if tier == "quick" else 6000):
        yield ("reqhead", [h], "head-malformed")
    n = 1500 if tier == "quick" else 20000
    reqs = [G.valid_request(rng, with_cl=rng.chance(2, 3)) for _ in range(n)]
    for r in reqs:
        yield ("reqhead", [r["head"]], "head-valid")
    # all short heads over a small alphabet (grammar boundary)
    toks = [b"GET", b"PUT", b" ", b"/", b"HTTP/1.1", b"HTTP/1.0", b"\r\n", b":", b"A", b"\r", b"\n"]
    maxk = 5 if tier == "quick" else 6
    for k in range(0, maxk + 1):
        for tup in itertools.product(range(len(toks)), repeat=k):
            if k >= 4 and tup[0] > 1:
                continue
            yield ("reqhead", [b"".join(toks[i] for i in tup)], "head-tokens")
    # socket level: accessors at headersParsed
    sub = reqs[: (400 if tier == "quick" else 4000)]
    bad = G.malformed_heads(rng, 150)
    ver, tab = G.oracle(ctx, [r["raw"] for r in sub] + [G.head_target(h) for h in bad])
    for r in sub:
        body = rng.bytes(max(r["cl"], 0))
        stream = r["head"] + b"\r\n\r\n" + body
        ops = [G.Construct] + [G.Feed(seg) for seg in rng.partition(stream)]
        meta = [1, r["method"], r["raw"], r["path"], [[k, v] for k, v in r["query"]], [[k, v] for k, v in r["sent"]], r["cl"]]
        yield ("sock", [G.NOPOL, ops, G.env_for(ver, tab, [r["raw"]]), meta], "sock-accessors")
    # targets whose decoding is QUrl's business (tabulated): query items without '=', empty items and names, repeated separators,
    # '+' and ';', escapes next to plain items, fragments - what the application is told must be what QUrl / QUrlQuery say
    QS = [b"flag&a=1", b"a=1&flag", b"flag", b"a&b", b"a&b&c=d", b"a&&b=1", b"&a=1", b"a=1&", b"=v&k", b"k=&a=1", b"a==b&c", b"a=b=c&d", b"a+b=c+d&e",
          b"a;b=1&c", b"x&y=%20&z", b"x=%26&y", b"flag&a=%41", b"a=1#frag&b", b"a=1&a=2&a", b"a&a&a", b"%61&b=1", b"?&?", b"a=1&flag&b=2"]
    otargets = [rng.choice([b"/p", b"/", b"/a/b"]) + b"?" + q for q in QS]
    over, otab = G.oracle(ctx, otargets)
    for t in otargets:
        head = rng.choice([b"GET ", b"POST "]) + t + b" HTTP/1.1\r\nHost: h"
        ops = [G.Construct] + [G.Feed(seg) for seg in rng.partition(head + b"\r\n\r\n", 3)]
        yield ("sock", [G.NOPOL, ops, G.env_for(over, otab, [t]), [9, t]], "sock-query-shapes")
    # what follows the first blank line in the same read ends in a blank line itself (a pipelined request, a stray CRLF, a body that
    # ends with one): the head is still what precedes the FIRST blank line
    for r in sub[:40]:
        for tail in (b"\r\n", b"\r\n\r\n", b"GET /next HTTP/1.1\r\nHost: h\r\n\r\n", b"x\r\n\r\n"):
            stream = r["head"] + b"\r\n\r\n" + rng.bytes(max(r["cl"], 0)) + tail
            if r["cl"] > 0:
                continue
            meta = [1, r["method"], r["raw"], r["path"], [[k, v] for k, v in r["query"]], [[k, v] for k, v in r["sent"]], r["cl"]]
            yield ("sock", [G.NOPOL, [G.Construct, G.Feed(stream)], G.env_for(ver, tab, [r["raw"]]), meta], "sock-two-blank-lines-in-one-read")
    # a well-formed head of more than 64 KiB (many header lines) arriving in one piece, and in two (family sockbig: family sock
    # judged by the statement alone - the extracted model is far too slow on heads of this size)
    biglines = [(b"X-L%d" % i, b"v" * 48) for i in range(1150)]
    bighead = b"GET /big HTTP/1.1\r\nHost: h" + b"".join(b"\r\n" + n + b": " + v for n, v in biglines)
    vb, tb = G.oracle(ctx, [b"/big"])
    metab = [1, 2, b"/big", b"/big", [], [[b"Host", b"h"]] + [[n, v] for n, v in biglines], -1]
    for segs in ([bighead + b"\r\n\r\n"], [bighead[:66000], bighead[66000:] + b"\r\n\r\n"]):
        for pre in (0, 1):
            ops = ([G.Feed(x) for x in segs] + [G.Construct, G.Turn]) if pre else ([G.Construct] + [G.Feed(x) for x in segs])
            yield ("sockbig", [G.NOPOL, ops, G.env_for(vb, tb, [b"/big"]), metab], "sock-head-over-64KiB")
    # declared lengths at and beyond the 32-bit limits (no body is sent: only what the application is told counts)
    for big in (2**31 - 1, 2**31, 2**31 + 1, 2**32 - 1, 2**32, 5 * 2**30, 2**53, 2**63 - 1):
        for nm in (b"Content-Length", b"content-length"):
            head = b"POST /up HTTP/1.1\r\nHost: h\r\n" + nm + b": %d" % big
            v2, t2 = G.oracle(ctx, [b"/up"])
            meta = [1, 8, b"/up", b"/up", [], [[b"Host", b"h"], [nm, b"%d" % big]], big]
            yield ("sock", [G.NOPOL, [G.Construct, G.Feed(head + b"\r\n\r\n")], G.env_for(v2, t2, [b"/up"]), meta], "sock-big-length")
    for h in bad:
        if (h + b"\r\n\r\n").find(b"\r\n\r\n") != len(h):
            continue  # the head is what precedes the FIRST blank line
        ops = [G.Construct, G.Feed(h + b"\r\n\r\n")]
        yield ("sock", [G.NOPOL, ops, G.env_for(ver, tab, [G.head_target(h)]), [0, h]], "sock-reject-consistency")
