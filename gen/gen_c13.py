"""C13 — the proxy relays the upstream response faithfully and maps failures to 502."""
from vlib import Rng, all_partitions
import sockgen as G

RULE = ("family proxy: scripted upstream responses: status codes 99..600, reasons (incl. empty / multi-word), header multisets with "
        "repeated names, bodies 0..40 bytes (multi-KiB in thorough) incl. binary bodies with NUL bytes arriving with the end of the head, segmentations of the upstream stream incl. all partitions of short "
        "heads and of the head/body boundary; faults: refused, close after k bytes for every k in the head, close mid-body, unparsable "
        "heads; non-trivial = distinct case")
ASSUMPTIONS = ["upstream header values are CR/LF-free and already trimmed (what a server sends)"]
TRUSTED = ["the upstream server is a QTcpServer in the harness; loopback TCP may coalesce segments sent within a few ms (each is flushed and the event loop pumped)"]

CODES = [99, 100, 101, 200, 204, 206, 301, 404, 418, 500, 599, 600, 0, 1000, -1]
REASONS = [b"OK", b"", b"Not Found", b"I AM A TEAPOT", b"x  y", b"Non trouv\xe9", b"\xff\xfe", b"caf\xc3\xa9"]
HDRS = [(b"Set-Cookie", b"a=1"), (b"Set-Cookie", b"b=2"), (b"set-cookie", b"c=3"), (b"Content-Type", b"text/plain"), (b"X-Up", b"1"),
        (b"Content-Length", None), (b"Vary", b"a, b"), (b"X-Empty", b""),
        # values with runs of blanks and tabs inside: they are part of the value
        (b"Last-Modified", b"Sun Nov  6 08:49:37 1994"), (b"WWW-Authenticate", b'Basic realm="staff  only"'), (b"X-Columns", b"left\tright"),
        (b"Set-Cookie", b"d=x   y"), (b"Set-Cookie", b"d=x y")]
REQ = b"GET /r HTTP/1.1\r\nHost: h"


def response(rng, tier):
    code = rng.choice(CODES)
    reason = rng.choice(REASONS)
    body = rng.bytes(rng.choice([0, 1, 7, 40] + ([5000] if tier != "quick" else [])))
    hs = []
    for _ in range(rng.range(0, 4)):
        n, v = rng.choice(HDRS)
        hs.append((n, v if v is not None else b"%d" % len(body)))
        if rng.chance(1, 4):
            hs.append((rng.choice([n, n.upper(), n.lower()]), hs[-1][1]))      # the same (name, value) pair again: it is relayed again
    form = rng.below(10)
    status = b"HTTP/1.1 " + (b"%d" % code) + b" " + reason
    if form == 0:
        status = b"HTTP/1.1 " + (b"%d" % code)          # no reason part at all: two tokens only
    elif form == 1:
        status = b"BOGUS"
    head = status + b"".join(b"\r\n" + n + rng.choice([b": ", b": ", b":", b":\t", b":  ", b" : "]) + v for n, v in hs)
    if form == 2:
        head += b"\r\nNoColonLine"
    return head + b"\r\n\r\n" + body, len(head)


def cases(tier, seed, ctx=None):
    rng = Rng(seed)
    ver, tab = G.oracle(ctx, [b"/r"])
    env = G.env_for(ver, tab, [b"/r"])
    n = 120 if tier == "quick" else 1200
    for _ in range(n):
        stream, headlen = response(rng, tier)
        mode = rng.below(5)
        if mode == 0:
            ops = [[0, stream], [1]]
        elif mode == 1:
            ops = [[0, s] for s in rng.partition(stream)] + [[1]]
        elif mode == 2:     # upstream closes after k bytes of the head
            k = rng.range(0, headlen + 3)
            ops = ([[0, stream[:k]]] if k else []) + [[1]]
        elif mode == 3:     # close mid-body
            k = rng.range(headlen + 4, max(headlen + 4, len(stream)))
            ops = [[0, stream[:k]], [1]]
        else:
            ops = [[0, stream[:headlen + 2]], [0, stream[headlen + 2:]], [1]]
        yield ("proxy", [REQ, [], 0, ops, 0, env, [13]], "mode%d" % mode)
    # binary bodies (NUL bytes at the start, in the middle, at the end) in the same upstream read as the end of the head
    for body in (b"\x00", b"\x00abc", b"ab\x00cd", b"abc\x00", b"\x89PNG\r\n\x1a\n\x00\x00\x00\rIHDR\x00\x00\x00\x01", b"\x00" * 5, b"a\x00" * 10):
        head = b"HTTP/1.1 200 OK\r\nContent-Type: application/octet-stream\r\nContent-Length: %d" % len(body)
        stream = head + b"\r\n\r\n" + body
        hl = len(head) + 4
        for cut in sorted(set([len(stream), hl + 1, hl + len(body) // 2, hl, hl - 1])):
            ops = [[0, stream[:cut]]] + ([[0, stream[cut:]]] if cut < len(stream) else []) + [[1]]
            yield ("proxy", [REQ, [], 0, ops, 0, env, [13]], "binary-body")
    # bodies larger than any internal block (64 KiB) arriving in one upstream burst, followed at once by the close
    for size in ((70000, 200000) if tier == "quick" else (65536, 65537, 70000, 200000, 524288)):
        body = rng.bytes(size)
        head = b"HTTP/1.1 200 OK\r\nContent-Length: %d" % size
        stream = head + b"\r\n\r\n" + body
        yield ("proxy", [REQ, [], 0, [[0, stream], [1]], 0, env, [13]], "big-burst")
        yield ("proxy", [REQ, [], 0, [[0, stream[:len(head) + 4]], [0, body], [1]], 0, env, [13]], "big-burst")
    # every split point of a short response
    stream = b"HTTP/1.1 201 CREATED\r\nA: 1\r\n\r\nxy"
    for k in range(1, len(stream)):
        yield ("proxy", [REQ, [], 0, [[0, stream[:k]], [0, stream[k:]], [1]], 0, env, [13]], "split-every-k")
        yield ("proxy", [REQ, [], 0, [[0, stream[:k]], [1]], 0, env, [13]], "close-every-k")
    yield ("proxy", [REQ, [], 0, [], 1, env, [13]], "refused")
    # the downstream connection under back-pressure when the response ends: 12 MiB to a client that reads slowly through a small
    # window, closed as soon as it was written - all of it arrives (family tlsraw, the transport path every relayed body takes)
    yield ("tlsraw", [b"GET /bighuge HTTP/1.1\r\nHost: h\r\n\r\n", 0, 0, [], 1, 0, 6], "downstream-back-pressure-at-the-end")
    # an upstream response head of a little more than 16 KiB (many header lines) arriving in two pieces: relayed as it is
    lines = b"".join(b"X-%d: %s\r\n" % (i, b"c" * 60) for i in range(250))
    stream = b"HTTP/1.1 200 OK\r\n" + lines + b"Content-Length: 2\r\n\r\nok"
    yield ("proxy", [REQ, [], 0, [[0, stream[:16500]], [0, stream[16500:]], [1]], 0, env, [13]], "upstream-head-over-16-KiB")
