"""C14 — device copier delivers exactly the requested bytes and signals completion once."""
from vlib import Rng

RULE = ("a buffering destination that flushes now and then and dies with data pending; the block size changed between blocks (setBufferSize while the copy runs) and the copier started again after completion; family copier: QIODeviceCopier over scripted devices; random-access: contents 0..12 bytes exhaustively x block sizes 1..len+1 x "
        "ranges (from,to) in [0,len+2]^2 and 'to end', run to completion; stop() at every turn; failing open/seek/read/write; "
        "sequential: every arrival partition of short contents, stop at every point; longer contents sampled; non-trivial = distinct case")
ASSUMPTIONS = ["a range on a sequential source is outside the documented API (setRange: 'if src device is not sequential')",
               "reversed range (to < from): only 'nothing written, completion once' is required"]
TRUSTED = ["scripted QIODevice subclasses stand in for files/sockets; one processEvents() = one event-loop turn"]
NOFAIL = [0, 0, 0, 0, 0]
START, TURN, STOP, FINISH = [0], [1], [2], [4]
def FEED(b): return [3, b]


def content(n, rng=None):
    return bytes((i * 7 + 1) % 251 for i in range(n))


def rand_case(c, bs, frm, to, extra_turns=3):
    n = len(c)
    turns = n // max(bs, 1) + extra_turns
    return ("copier", [c, 0, bs, frm, to, NOFAIL, [START] + [TURN] * turns, [14, 0]], "rand-complete")


def cases(tier, seed, ctx=None):
    rng = Rng(seed)
    maxlen = 7 if tier == "quick" else 12
    for n in range(0, maxlen + 1):
        c = content(n)
        for bs in range(1, n + 2):
            for frm in range(0, n + 3):
                for to in [-1] + list(range(0, n + 3)):
                    if to != -1 and to < frm and not (frm - to <= 2):
                        continue
                    yield ("copier", [c, 0, bs, frm, to, NOFAIL, [START] + [TURN] * (n // bs + 3), [14, 0]], "ra-complete" if to == -1 or to >= frm else "ra-reversed")
    # stop at every turn
    for n in (0, 1, 5, 10):
        c = content(n)
        for bs in (1, 2, 3, n + 1):
            for frm, to in ((0, -1), (2, 7), (1, -1)):
                total = n // bs + 3
                for k in range(0, total + 1):
                    ops = [START] + [TURN] * k + [STOP] + [TURN] * (total - k + 1)
                    yield ("copier", [c, 0, bs, frm, to, NOFAIL, ops, [14, 1]], "ra-stop")
                ops = [STOP, START] + [TURN] * total
                yield ("copier", [c, 0, bs, frm, to, NOFAIL, ops, [14, 2]], "ra-stop-before-start")
    # failing primitives
    for n in (0, 4, 9):
        c = content(n)
        for fi in range(5):
            fl = [1 if i == fi else 0 for i in range(5)]
            for frm, to in ((0, -1), (2, -1), (1, 3)):
                for seqf in (0, 1):
                    if seqf and fi in (2, 3):
                        continue
                    ops = [START] + ([TURN, FEED(c[:2]), TURN, FEED(c[2:]), FINISH, TURN] if seqf else [TURN] * (n + 3))
                    yield ("copier", [c, seqf, 2, 0 if seqf else frm, -1 if seqf else to, fl, ops, [14, 3]], "failing")
    # sequential source whose data is all there before start() and whose end comes before the copier's first turn, destination that
    # fails: the failing write is the final flush
    for n in (1, 4, 9):
        c = content(n)
        for ops in ([FEED(c), START, FINISH, TURN], [FEED(c[:1]), START, FEED(c[1:]), FINISH, TURN], [START, FEED(c), FINISH, TURN, TURN], [FEED(c), START, FINISH]):
            yield ("copier", [c, 1, 3, 0, -1, [0, 0, 0, 0, 1], ops, [14, 3]], "seq-final-flush-fails")
    # a random-access source that reports no size and nothing available (a procfs-style pseudo file) and still delivers its content
    for n in (0, 5, 40):
        c = content(n)
        # (contents that fit in one block: what such a device says about its end after the first read is its own business)
        for bs in (64, 41):
            for frm, to in ((0, -1), (2, -1), (1, 3)):
                if frm <= n:
                    yield ("copier", [c, 0, bs, frm, to, NOFAIL + [0, 0, 1], [START] + [TURN] * (n // bs + 3), [14, 0]], "ra-sizeless-source")
    # the source is closed under the copier between two blocks (it then fails every read AND reports being at its end): the error is
    # signalled, then the single completion
    for n in (10, 40):
        c = content(n)
        for bs in (3, 8):
            for k in (1, 2, n // bs):
                ops = [START] + [TURN] * k + [[8]] + [TURN] * 4
                yield ("copier", [c, 0, bs, 0, -1, NOFAIL, ops, [14, 3]], "ra-source-closed-midway")
    # multi-block contents
    for n in (40, 255, 256, 257, 1000):
        c = content(n)
        for bs in (1, 7, 64, 256, n, n + 1):
            for _ in range(3 if tier == "quick" else 12):
                frm = rng.choice([0, 1, bs - 1, bs, bs + 1, n - 1, n, n + 1, rng.range(0, n)])
                to = rng.choice([-1, frm, frm + bs - 1, frm + bs, n - 2, n - 1, n, n + 5, rng.range(frm, n + 2)])
                frm = max(frm, 0)
                if to != -1 and to < frm:
                    to = frm
                yield ("copier", [c, 0, bs, frm, to, NOFAIL, [START] + [TURN] * (n // bs + 3), [14, 0]], "ra-multiblock")
    # sequential: all partitions, stop at every point
    # a random-access source that hands out short reads (a record-by-record device): cap < block size
    for n in (5, 12, 40):
        c = content(n)
        for bs in (4, 8, 64):
            for cap in (1, 3, bs - 1, bs):
                if cap < 1:
                    continue
                for frm, to in ((0, -1), (2, -1), (1, n - 2), (0, n + 1), (3, 3)):
                    yield ("copier", [c, 0, bs, frm, to, NOFAIL + [cap], [START] + [TURN] * (n + 3), [14, 0]], "ra-short-reads")
    # the block size changed while the copy runs (setBufferSize between blocks, smaller and much larger), and the same copier
    # started again after it finished, with another block size
    def SETBS(n): return [5, n]
    for n in (10, 40, 300, 5000) if tier == "quick" else (10, 40, 300, 5000, 70000):
        c = content(n)
        for _ in range(6 if tier == "quick" else 30):
            bs0 = rng.choice([1, 3, 16, 64, 4096])
            frm = rng.choice([0, 0, 1, bs0, n // 2])
            to = rng.choice([-1, -1, n - 2, n + 3])
            if to != -1 and to < frm:
                to = -1
            ops = [START]
            budget = 0
            cur = bs0
            for _ in range(rng.range(1, 4)):
                ops += [TURN] * rng.range(0, 2)
                cur = rng.choice([1, 2, cur * 4, cur * 64, 65536, 262144, max(1, cur // 2)])
                ops.append(SETBS(cur))
            ops += [TURN] * (min(n, 400) + 4)       # enough turns whatever the sizes were (each block is at least one byte)
            if n > 400:
                ops.insert(1, SETBS(max(bs0, 64)))
                ops += [SETBS(65536)] + [TURN] * (n // 64 + 4)
            yield ("copier", [c, 0, bs0, frm, to, NOFAIL, ops, [14, 0]], "ra-blocksize-changed")
            # restart after completion (the source position stays at the end unless a range start is set: nothing or the range again)
            ops2 = [START] + [TURN] * (n // max(bs0, 1) + 3) + [SETBS(rng.choice([bs0 * 8, 65536, 1])), START] + [TURN] * (min(n, 400) + 4)
            if n <= 400 or bs0 >= 16:
                yield ("copier", [c, 0, bs0, frm, to, NOFAIL, ops2, [14, 9]], "ra-restarted")
    # a destination that buffers what it accepts (a socket whose peer reads slowly): it flushes now and then, and at some point it
    # dies with data still buffered (no notification, writes fail from then on): the copier reports the error and completes once
    def FLUSH(n): return [6, n]
    DIE = [7]
    for n in (10, 64, 300):
        c = content(n)
        for bs in (1, 4, 16):
            for _ in range(3 if tier == "quick" else 12):
                ops = [START]
                turns = n // bs + 3
                die_at = rng.range(1, turns)
                for t in range(turns + 3):
                    if t == die_at and rng.chance(3, 4):
                        ops.append(DIE)
                    if rng.chance(1, 4):
                        ops.append(FLUSH(rng.choice([1, bs, 5 * bs])))
                    ops.append(TURN)
                yield ("copier", [c, 0, bs, 0, -1, NOFAIL + [0, 1], ops, [14, 3]], "ra-buffering-destination")
    from vlib import all_partitions
    for n in range(0, (5 if tier == "quick" else 7)):
        c = content(n)
        for parts in all_partitions(c):
            base = [START, TURN] + [x for p in parts for x in (FEED(p), TURN)] + [FINISH, TURN]
            yield ("copier", [c, 1, 3, 0, -1, NOFAIL, base, [14, 4]], "seq-complete")
            # data arriving before the first turn, and finish with unread data
            yield ("copier", [c, 1, 3, 0, -1, NOFAIL, [START] + [FEED(p) for p in parts] + [FINISH, TURN], [14, 4]], "seq-early")
            # pieces already buffered in the source before start(), the rest (and the end) before the copier's first turn
            for j in range(1, len(parts) + 1):
                ops = [FEED(p) for p in parts[:j]] + [START] + [FEED(p) for p in parts[j:]] + [FINISH, TURN]
                yield ("copier", [c, 1, 3, 0, -1, NOFAIL, ops, [14, 4]], "seq-buffered-before-start")
                ops = [FEED(p) for p in parts[:j]] + [START, TURN] + [x for p in parts[j:] for x in (FEED(p), TURN)] + [FINISH, TURN]
                yield ("copier", [c, 1, 3, 0, -1, NOFAIL, ops, [14, 4]], "seq-buffered-before-start")
            for k in range(1, len(base)):
                ops = base[:k] + [STOP] + base[k:]
                yield ("copier", [c, 1, 3, 0, -1, NOFAIL, ops, [14, 5]], "seq-stop")
    # sources far larger than memory (their bytes are a function of the position): ranges that span 2 GiB and more, with an explicit
    # end and to the end; watched for a few turns, then stopped
    G2 = 2 ** 31
    for size, frm, to in ((G2 + 70000, 0, G2 + 69999), (G2 + 70000, 1000, G2 + 2999), (3 * G2, 5, -1), (2 ** 33 + 9, 7, 2 ** 32 + 6), (2 ** 32 + 100, 0, 2 ** 32 + 99),
                          (2 ** 40, 2 ** 39, -1), (G2 + 70000, G2 + 1, G2 + 50), (100000, 10, 90000), (G2 - 1, 0, G2 - 2), (G2, 0, G2 - 1)):
        for bs in (65536, 4096, 1000):
            yield ("copierbig", [size, bs, frm, to, rng.range(1, 6)], "ranges-of-2-GiB-and-more")
