"""C10 — connections never outlive their peer; ending one never crashes."""
from vlib import Rng

RULE = ("family lifed: the real Server wiring over SimTcp in life mode (close completes when written bytes are flushed), explicit event-loop "
        "turns; handler kinds default-404 / FilesystemHandler streaming 0..300000 bytes / slot waiting for its body / passive / adopting (re-parents the socket as ProxyHandler does); operation "
        "schedules over 1..3 simultaneous connections: request bytes in pieces cut at every offset class, flushes, peer resets, application "
        "closes, server destruction, turns; every schedule ends with reset + turns + destruction + turns.  family life: a real listening "
        "Server on the loopback interface with real TCP clients (all four kinds incl. ProxyHandler); non-trivial = distinct case")
ASSUMPTIONS = ["requests are the fixed valid request of the handler kind", "life mode of SimTcp stands for QAbstractSocket::close()/disconnected()"]
TRUSTED = ["live QIODeviceCopier objects are counted by the guarded hook qhttpengine_verif_live_copiers", "descriptor counts come from /proc/self/fd"]

REQ = {0: (b"GET /x HTTP/1.1\r\nHost: h\r\n\r\n", 0),
       1: (b"GET /big.bin HTTP/1.1\r\nHost: h\r\n\r\n", 0),
       2: (b"POST /slot HTTP/1.1\r\nContent-Length: 10\r\n\r\n0123456789", 10),
       3: (b"GET /keep HTTP/1.1\r\n\r\n", 0),
       4: (b"GET /adopt HTTP/1.1\r\n\r\n", 0)}
FSIZES = [0, 1, 65536, 65537, 131072, 200000, 300000]
T = [3]


def schedule(rng, kind, nconn):
    req, clen = REQ[kind]
    hl = len(req) - clen
    ops = []
    opened = 0
    left = {}
    dead = False
    def open_one():
        nonlocal opened
        ops.append([6]); left[opened] = len(req); opened += 1
    open_one()
    steps = rng.range(3, 14)
    for _ in range(steps):
        r = rng.below(100)
        i = rng.below(opened)
        if r < 8 and opened < nconn and not dead:
            open_one()
        elif r < 40:
            # cut points: inside the head, exactly at its end, inside the body, everything
            rem = left[i]
            choice = rng.choice([1, 3, hl - (len(req) - rem) - 1, hl - (len(req) - rem), rem - 1, rem, rem + 5])
            n = max(1, choice)
            ops.append([0, i, n]); left[i] = max(0, rem - n)
        elif r < 62:
            ops.append(T)
        elif r < 74:
            ops.append([1, i])
        elif r < 84:
            ops.append([2, i])
        elif r < 92:
            ops.append([5, i])
        elif r < 96:
            ops.append([4]); dead = True
        else:
            ops.append(T); ops.append(T)
    # closing sequence: both sides closed everywhere, bounded turns, then the server goes
    for i in range(opened):
        if rng.chance(1, 2): ops.append([1, i])
        ops.append([2, i])
    ops += [T, T, T]
    ops.append([4])
    ops += [T, T]
    return [kind, rng.choice(FSIZES) if kind == 1 else 0, req, clen, ops]


def cases(tier, seed, ctx=None):
    rng = Rng(seed)
    n = 400 if tier == "quick" else 6000
    for j in range(n):
        kind = rng.choice([0, 1, 1, 1, 2, 2, 3, 4, 4])
        yield ("lifed", schedule(rng, kind, rng.choice([1, 1, 2, 3])), "k%d" % kind)
    # systematic: one connection, request cut after every byte offset, then each way of ending it
    for kind in range(5):
        req, clen = REQ[kind]
        offs = range(0, len(req) + 1) if tier != "quick" else sorted(set([0, 1, len(req) - clen - 1, len(req) - clen, len(req) - 1, len(req)]))
        for cut in offs:
            for end in ([[2, 0]], [[5, 0]], [[4]], [[5, 0], [1, 0]], [T, [2, 0]], [T, T, [4]], [[1, 0], T, [2, 0]], [[4], T, [2, 0]], [[4], [5, 0]]):
                ops = [[6]] + ([[0, 0, cut]] if cut else []) + end + [T, T, [2, 0], T, T, [4], T, T]
                yield ("lifed", [kind, 200000 if kind == 1 else 0, req, clen, ops], "cut")

    # real sockets on the loopback interface (judged by the spec alone): ( kind ((request cut action)..) destroy_at_end )
    LREQ = {0: b"GET /x HTTP/1.1\r\nHost: h\r\n\r\n", 1: b"GET /big.bin HTTP/1.1\r\n\r\n",
            2: b"POST /slot HTTP/1.1\r\nContent-Length: 10\r\n\r\n0123456789", 3: b"POST /p HTTP/1.1\r\nContent-Length: 3\r\n\r\nabc"}
    nl = 32 if tier == "quick" else 480
    for j in range(nl):
        kind = j % 4
        r = LREQ[kind]
        conns = []
        for _ in range(rng.choice([1, 1, 2, 4])):
            conns.append([r, rng.choice([0, 1, len(r) // 2, len(r) - 3, len(r)]), rng.below(5)])
        yield ("life", [kind, conns, rng.below(2)], "loopback-k%d" % kind)
    # the server side closes first, some time after everything was flushed, while the client just waits (a handler that closes later,
    # a proxy whose upstream closes later): the connection's objects go when the close has run
    for j in range(4 if tier == "quick" else 30):
        r = b"GET /x HTTP/1.1\r\nHost: h\r\n\r\n"
        conns = [[r, len(r), 2] for _ in range(rng.choice([1, 3, 5]))]
        yield ("life", [4, conns, 0], "loopback-server-closes-later")
    # clients that keep sending after their request is complete (more than the socket buffers hold) and then go away, while the
    # server side has not answered yet (proxy with a silent upstream, slot still waiting) or has
    for j in range(8 if tier == "quick" else 60):
        kind = [3, 2, 3, 0][j % 4]
        r = LREQ[kind] if kind != 2 else b"POST /slot HTTP/1.1\r\nContent-Length: 10\r\n\r\n0123456789"
        conns = [[r, rng.choice([len(r), len(r) // 2]), rng.choice([5, 6]), rng.choice([70000, 140000, 400000])] for _ in range(rng.choice([1, 3]))]
        yield ("life", [kind, conns, 0], "loopback-surplus-then-gone-k%d" % kind)

    # proxied connections torn down at every stage of the upstream exchange (family proxy: the harness deletes the HTTP
    # socket while the upstream socket is connecting, connected, mid-response or closed): ending them must not crash
    import gen_c13
    cs = list(gen_c13.cases("quick", seed + 5, ctx))
    step = max(1, len(cs) // (40 if tier == "quick" else 200))
    for j, (fam, val, tag) in enumerate(cs[::step]):
        if j % 2 and val[3] and val[3][-1] == [1]:
            val = val[:3] + [val[3][:-1]] + val[4:]      # the upstream never closes: its socket is still connected at the teardown
        yield (fam, val, "proxy-teardown")

    # a TLS server destroyed while handshakes are pending: the accepted sockets go with it, nothing completes afterwards
    for n in (1, 2, 3):
        for after in (0, 1):
            yield ("tls", [4, n, after], "tls-destroyed-mid-handshake")
    # TLS clients that a restrictive configuration turns away (no client certificate where one is demanded, an older protocol where
    # TLS 1.3 is demanded): whatever the handshake does, the connection's objects are gone afterwards
    for cfg in (4, 5):
        for rq in (b"GET / HTTP/1.1\r\nHost: h\r\n\r\n", b""):
            yield ("tls", [5, cfg, rq], "tls-unwelcome-client-released")
    # dozens of connections in flight on one server at the same time (unfinished request heads), twice in a row; afterwards every
    # descriptor and object is gone
    for kind in (0, 2):
        r = LREQ[kind]
        yield ("life", [kind, [[r, len(r) // 2, 8, 40], [r, len(r) // 2, 8, 40], [r, len(r), 2]], 0], "loopback-many-in-flight")
