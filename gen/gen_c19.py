"""C19 — one request per connection; nothing is sent or routed after the close."""
from vlib import Rng
import sockgen as G

RULE = ("families sock and srv: pairs/triples of concatenated requests (valid or not) x segmentations x handler behaviours "
        "{respond+close in headersParsed, respond later, never respond} x API calls after close x late transport events "
        "(segments, acks, peer FIN, disconnect); family socknet: complete responses followed by late calls over a REAL loopback connection "
        "(what the client receives); non-trivial = distinct case")
ASSUMPTIONS = ["a closed QTcpSocket refuses writes and flushes pending bytes before FIN (Qt)"]
TRUSTED = ["SimTcp stands in for the kernel TCP stack"]

LATE = [G.Write(b"late"), G.WriteHeaders, G.WriteError(500), G.Close, G.WriteRedirect(b"/x"), G.SetHeader(b"L", b"1"), G.ReadAll, G.Avail]


CASE_TIMEOUT = 60


def cases(tier, seed, ctx=None):
    rng = Rng(seed)
    n = 500 if tier == "quick" else 6000
    reqs = []
    for _ in range(n):
        parts = []
        for _ in range(rng.range(1, 3)):
            if rng.chance(3, 4):
                body = rng.bytes(rng.range(0, 5))
                r = G.valid_request(rng, body_len=len(body), with_cl=rng.chance(3, 4))
                parts.append((r["head"] + b"\r\n\r\n" + (body if r["cl"] >= 0 else b""), r["raw"]))
            else:
                h = rng.choice(G.malformed_heads(rng, 60))
                parts.append((h + b"\r\n\r\n", G.head_target(h)))
        reqs.append(parts)
    ver, tab = G.oracle(ctx, [t for parts in reqs for _, t in parts])
    pols = [("respond-close", [[G.Write(b"ok"), G.Close], [], []]),
            ("error-in-headers", [[G.WriteError(404)], [], []]),
            ("later", G.NOPOL), ("never", G.NOPOL),
            ("close-on-ready", [[], [G.ReadAll, G.WriteError(500)], []]),
            ("respond-at-end", [[], [], [G.ReadAll, G.Write(b"done"), G.Close]])]
    for parts in reqs:
        stream = b"".join(p for p, _ in parts)
        env = G.env_for(ver, tab, [t for _, t in parts])
        for name, pol in pols:
            segs = rng.partition(stream)
            ops = [G.Construct]
            for s in segs:
                ops.append(G.Feed(s))
                if rng.chance(1, 8):
                    ops.append(G.Ack(rng.range(0, 50)))
            if name == "later":
                ops += [G.Turn, G.App(G.Write(b"resp")), G.App(G.Close)]
            for _ in range(rng.range(0, 4)):
                k = rng.below(6)
                if k < 3:
                    ops.append(G.App(rng.choice(LATE)))
                elif k == 3:
                    ops.append(G.Feed(rng.choice([b"GET / HTTP/1.1\r\n\r\n", b"x", b"\r\n\r\n"])))
                elif k == 4:
                    ops.append(rng.choice([G.Ack(7), G.PeerFin, G.Turn]))
                else:
                    ops.append(G.PeerDrop)
            yield ("sock", [pol, ops, env, [19]], "sock-" + name)
            yield ("srv", [[[], [], [], rng.below(3), 0], [o for o in ops if o[0] != 10], env + [[]], [19]], "srv-" + name)
    # the same over a REAL loopback connection: what the client receives.  Complete responses followed, inside the same
    # notification, by every kind of late call
    late_sets = [[], [G.WriteError(500)], [G.Write(b"late")], [G.WriteHeaders], [G.Close], [G.WriteRedirect(b"/x")], [G.WriteError(404), G.Close],
                 [G.SetHeader(b"L", b"1"), G.Write(b"z")], [G.ReadAll, G.WriteError(503)]]
    first = [("write-close", [G.SetHeader(b"Content-Length", b"2"), G.Write(b"ok"), G.Close]), ("error", [G.WriteError(404)]),
             ("redirect", [G.WriteRedirect(b"/there")]), ("big", [G.SetHeader(b"Content-Length", b"70000"), G.Write(b"x" * 70000), G.Close])]
    nn = 40 if tier == "quick" else 400
    for j in range(nn):
        body = rng.bytes(rng.range(0, 5))
        r = G.valid_request(rng, body_len=len(body))
        ver2, tab2 = G.oracle(ctx, [r["raw"]])
        env2 = G.env_for(ver2, tab2, [r["raw"]])
        name, resp = first[j % len(first)]
        late = late_sets[(j // len(first)) % len(late_sets)]
        stream = r["head"] + b"\r\n\r\n" + body
        where = rng.below(3)
        pol = [resp + late, [], []] if where == 0 else ([resp, late, late] if where == 1 else [resp, [], []])
        ops = [G.Construct] + [G.Feed(s) for s in rng.partition(stream, 4)] + [G.Turn]
        if where == 2:
            ops = ops[:-1] + [G.App(a) for a in late] + [G.Turn]
        yield ("socknet", [pol, ops, env2, [19, 1]], "net-" + name)
    # a transport whose reading side lingers after close() (family sockl): the application closes or answers with an error
    # while the head is still incomplete, then the rest of the head (or a whole request) still arrives
    for j in range(80 if tier == "quick" else 1200):
        r = G.valid_request(rng, body_len=rng.choice([0, 0, 3]))
        stream = r["head"] + b"\r\n\r\n" + rng.bytes(max(0, r["cl"]))
        k = rng.range(0, len(r["head"]) + 3)
        ver3, tab3 = G.oracle(ctx, [r["raw"]])
        env3 = G.env_for(ver3, tab3, [r["raw"]])
        early = rng.choice([[G.Close], [G.WriteError(500)], [G.Write(b"no"), G.Close], [G.WriteRedirect(b"/x")]])
        late = rng.choice([stream[k:], stream[k:] + b"GET / HTTP/1.1\r\n\r\n", b"BOGUS\r\n\r\n", stream])
        ops = [G.Construct] + ([G.Feed(stream[:k])] if k else []) + [G.App(a) for a in early] + [G.Feed(s) for s in rng.partition(late, 3)] + [G.Turn]
        pol = rng.choice([G.NOPOL, [[G.Write(b"ok"), G.Close], [], []]])
        yield ("sockl", [pol, ops, env3, [19]], "linger-late-segments")
    # the pending response at close() over TLS: several MiB written and closed at once must reach the client whole, as over plain TCP
    yield ("tls", [1, b"GET /big HTTP/1.1\r\nHost: h\r\n\r\n", 5], "tls-big-response-at-close")
    yield ("tls", [1, b"GET /small HTTP/1.1\r\nHost: h\r\n\r\n", 5], "tls-small-response-at-close")

    # requests the library refuses, followed by more bytes that reach the server in the SAME read: as a second TLS
    # record sent back to back, and as one write of several KiB (decrypted in several steps); TLS and plain must answer alike
    for j, h in enumerate([b"BOGUS", b"GET / HTTP/1.2", b"GET //[::1/x HTTP/1.1\r\nHost: h", b"GET  / HTTP/1.1\r\nHost: h", b"PATCH /x HTTP/1.0"]):
        tail = rng.choice([b"GET /second HTTP/1.1\r\nHost: h\r\n\r\n", b"x" * 200])
        yield ("tls", [1, h + b"\r\n\r\n" + tail, len(h) + 4, -1], "%srefused-then-second-record" % 'tls-')
        big = (b"GET /again HTTP/1.1\r\nHost: h\r\n\r\n" + b"junk " * 40) * rng.choice([30, 90])
        yield ("tls", [1, h + b"\r\n\r\n" + big, rng.choice([0, len(h) + 4, 3]), rng.choice([-1, 15])], "%srefused-then-several-KiB" % 'tls-')
    # a client that sends more than its request (100..300 KB of further bytes) before the handler answers 40 ms later: the answer -
    # a few bytes or 3 MiB - arrives whole and the connection is shut in an orderly way (no reset), TLS and plain alike
    for j in range(4 if tier == "quick" else 24):
        rq = (b"POST /big HTTP/1.1\r\nContent-Length: 5\r\n\r\nhello" if j % 2 else b"POST /x HTTP/1.1\r\nContent-Length: 5\r\n\r\nhello")
        yield ("tlsraw", [rq, j % 4 // 2, 40, rng.choice([[], [7]]), 1, rng.choice([100000, 300000])], "%s-surplus-before-the-answer" % 'tlsraw')
    # the application writes its body in two event-loop turns and closes from the write-progress notification that completes it:
    # everything written before the close reaches the client, over TLS as over plain TCP
    for j in range(2 if tier == "quick" else 10):
        yield ("tlsraw", [b"GET /notify HTTP/1.1\r\nHost: h\r\n\r\n", 0, 0, [], 1, 0, 0], "tlsraw-close-from-the-notification")
    # close() called a second time a little later, while a 12 MiB response is still on its way to a client that reads slowly: the
    # client still receives all of it
    yield ("tlsraw", [b"GET /bigtwice HTTP/1.1\r\nHost: h\r\n\r\n", 0, 0, [], 1, 0, 6], "tlsraw-close-again-while-flushing")
    # through the real server wiring with handler trees (redirects with and without captures, sub-handlers, refusing middleware):
    # whatever answers and closes, nothing is routed afterwards (no middleware, no handler runs once the connection was closed)
    import gen_c05
    for fam, val, tag in gen_c05.build(tier, seed + 3, ctx, True, 200 if tier == "quick" else 3000):
        if fam in ("srv", "srvm"):
            yield (fam, val, "tree-" + tag)
    # a client that half-closes its side right after the request while a 12 MiB response (written and closed at once) is still on its
    # way to it through a small window: it still receives all of it, TLS and plain alike
    for ending in (2, 3):
        yield ("tlsraw", [b"GET /bighuge HTTP/1.1\r\nHost: h\r\n\r\n", ending, 0, [], 1, 0, 6], "tlsraw-half-close-while-flushing")
    # a healthy but slow client that needs about 12 s to read a 12 MiB response that was closed at once: it receives all of it
    yield ("tlsraw", [b"GET /bighuge HTTP/1.1\r\nHost: h\r\n\r\n", 0, 0, [], 1, 0, 60], "tlsraw-slow-client-takes-seconds")
