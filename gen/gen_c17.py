"""C17 — local token authentication: token always advertised, only it is accepted."""
from vlib import Rng

RULE = ("family lauth: histories construct / setData (string, integer, boolean and null values; the same keys again with values that compare equal under QVariant's converting comparison but are written differently) / setHeaderName / process / destroy (0-4 updates, several instances in succession), "
        "umasks {000,022,027,077}, pre-existing permissive file; after EVERY call the file's existence, mode and JSON members are observed; "
        "process() with the token, case/brace/prefix/space variants, empty, missing, an earlier instance's token, under the right and "
        "wrong header names; lauth_unique: N successive instances, distinct tokens counted; non-trivial = distinct case")
ASSUMPTIONS = ["one live instance per application name at a time", "token uniqueness is randomness of QUuid: observed only (labelled partial)",
               "data values are strings, integers, booleans or null (nested maps and lists are not generated)"]
TRUSTED = ["HOME is redirected to a scratch directory; QJsonDocument parses the file for the observation"]

KEYS = [b"port", b"name", b"token", b"a", b"zz", b"Token"]
VALS = [b"8080", b"x", b"", b"v w", b"<b>", b"\x01i8080", b"\x01i1", b"\x01i0", b"\x01b1", b"\x01b0", b"1", b"0", b"true", b"false", b"\x01n"]
# values that Qt's converting QVariant comparison calls equal although they are written to the file differently
LOOSE = {b"8080": [b"\x01i8080"], b"\x01i8080": [b"8080"], b"\x01i1": [b"1", b"\x01b1", b"true"], b"\x01b1": [b"\x01i1", b"1", b"true"],
         b"1": [b"\x01i1", b"\x01b1"], b"true": [b"\x01b1"], b"\x01i0": [b"0", b"\x01b0"], b"\x01b0": [b"\x01i0", b"0", b"false"], b"0": [b"\x01i0", b"\x01b0"],
         b"false": [b"\x01b0"], b"": [b"\x01n"], b"\x01n": [b""]}
HNAMES = [b"X-Auth-Token", b"x-auth-token", b"X-Other", b"Authorization"]
HVALS = [b"<TOKEN>", b" <TOKEN> ", b"<TOKEN:upper>", b"<TOKEN:nobrace>", b"<TOKEN:prefix>", b"", b"<PREV>", b"<TOKEN>x", b"{}", b"x",
         b"<TOKEN>\x00junk", b"<TOKEN>\x00", b"\x00<TOKEN>", b"<TOKEN:cyc256>", b"<TOKEN:cyc512>", b"<TOKEN:cyc255>", b"<TOKEN:cyc38>", b"<TOKEN>" + b"j" * 256]


def cases(tier, seed, ctx=None):
    rng = Rng(seed)
    n = 300 if tier == "quick" else 3000
    for _ in range(n):
        ops = []
        cur_h = b"X-Auth-Token"
        for inst in range(rng.range(1, 3)):
            ops.append([0, rng.choice([0o000, 0o022, 0o027, 0o077]), 1 if rng.chance(1, 3) else 0])
            for _ in range(rng.range(0, 4)):
                k = rng.below(3)
                if rng.chance(1, 8):
                    ops.append([5, rng.choice([b"other-app", b"hxverif", b"x"])])      # the application is renamed while the instance lives
                if k == 0:
                    d = [[rng.choice(KEYS), rng.choice(VALS)] for _ in range(rng.range(0, 3))]
                    ops.append([1, d])
                    if d and rng.chance(1, 2):     # the same keys again, values changed to ones that merely compare equal
                        ops.append([1, [[kk, rng.choice(LOOSE.get(vv, [vv]))] for kk, vv in d]])
                elif k == 1:
                    ops.append([2, rng.choice(HNAMES)])
                else:
                    hs = [[rng.choice(HNAMES), rng.choice(HVALS)] for _ in range(rng.range(0, 2))]
                    if rng.chance(1, 4):
                        # other methods and the headers of a CORS preflight: admission looks at the token header only
                        hs = [[b":method", rng.choice([b"OPTIONS", b"OPTIONS", b"HEAD", b"POST", b"DELETE"])],
                              [b"Origin", b"https://app.example"], [b"Access-Control-Request-Method", b"POST"]][: rng.range(1, 3)] + hs
                    ops.append([3, hs])
            ops.append([3, [[rng.choice(HNAMES), rng.choice(HVALS)]]])
            if rng.chance(4, 5) or inst == 0:
                ops.append([4])
            else:
                break
        yield ("lauth", [ops, [17]], "history")
    yield ("lauth", [[[0, 0o022, 0], [3, [[b"X-Auth-Token", b"<TOKEN>"]]], [4]], [17]], "basic")
    yield ("lauth_unique", [20 if tier == "quick" else 200], "unique")
    yield ("lauth_unique", [5, 3 if tier == "quick" else 6], "unique-across-processes")
