"""sockgen.py — shared builders for the "sock" family (C01..C04, C18, C19) and parser families."""
from vlib import Rng, all_partitions

METHODS = [(b"OPTIONS", 1), (b"GET", 2), (b"HEAD", 4), (b"POST", 8), (b"PUT", 16), (b"DELETE", 32), (b"TRACE", 64), (b"CONNECT", 128)]
UNRES = b"abcXYZ019-._~"
CRLF = b"\r\n"

# aop constructors
def Read(n): return [0, n]
ReadAll = [1]
Close = [2]
def SetStatus(c, reason=None): return [3, c, [] if reason is None else [reason]]
def SetHeader(n, v, rep=True): return [4, n, v, 1 if rep else 0]
def SetHeaders(pairs): return [5, [[k, v] for k, v in pairs]]
WriteHeaders = [6]
def Write(b): return [7, b]
def WriteError(c, reason=None): return [8, c, [] if reason is None else [reason]]
def WriteRedirect(p, perm=False): return [9, p, 1 if perm else 0]
def WriteJson(src, code, rendered): return [10, src, code, rendered]
Avail = [11]
Listen = [12]     # a bytesWritten listener subscribes now (family socklate: the only one)
# ops
def Feed(b): return [0, b]
def Ack(n): return [1, n]
PeerFin = [2]
Turn = [3]
Construct = [4]
PeerDrop = [5]
def App(a): return [10, a]

NOPOL = [[], [], []]


def pct(b, keep=UNRES + b"/"):
    return b"".join(bytes([c]) if c in keep else b"%%%02X" % c for c in b)


def rand_utf8(rng, n):
    out = b""
    for _ in range(n):
        k = rng.below(10)
        if k < 5:
            out += bytes([rng.choice(UNRES)])
        elif k < 7:
            out += bytes([rng.choice(b" !\"#$%&'()*+,/:;<=>?@[\\]^`{|}\r\n\t\x01\x7f")])
        elif k < 8:
            out += chr(rng.range(0x80, 0x7ff)).encode()
        elif k < 9:
            cp = rng.range(0x800, 0xffff)
            if 0xd800 <= cp <= 0xdfff or 0xfdd0 <= cp <= 0xfdef or cp >= 0xfffe:
                cp = 0x20ac
            out += chr(cp).encode()
        else:
            cp = rng.range(0x10000, 0x10ffff)
            if cp & 0xfffe == 0xfffe:
                cp = 0x1f600
            out += chr(cp).encode()
    return out


def class_target(rng):
    """origin-form target of the C01 class: (raw, decoded path, query pairs)"""
    nseg = rng.range(0, 3)
    decoded = b"/"
    raw = b"/"
    for i in range(nseg):
        seg = rand_utf8(rng, rng.range(0 if i else 1, 5))
        if i == 0 and seg[:1] == b"/":
            seg = b"a" + seg
        enc = b""
        for c in seg:
            ch = bytes([c])
            if c in UNRES and not rng.chance(1, 8):
                enc += ch
            else:
                enc += (b"%%%02X" if rng.chance(1, 2) else b"%%%02x") % c
        decoded += seg
        raw += enc
        if i + 1 < nseg:
            decoded += b"/"
            raw += b"/"
    if len(raw) > 1 and raw[1:2] == b"/":
        raw = b"/a" + raw[1:]
        decoded = b"/a" + decoded[1:]
    pairs = []
    if rng.chance(1, 2):
        for _ in range(rng.range(1, 3)):
            k = rng.bytes(rng.range(1, 3), UNRES)
            v = rng.bytes(rng.range(0, 3), UNRES)
            pairs.append((k, v))
        raw += b"?" + b"&".join(k + b"=" + v for k, v in pairs)
    return raw, decoded, pairs


HNAMES = [b"Host", b"X-A", b"x-a", b"X-a", b"Accept", b"COOKIE", b"Cookie", b"\xc9tag", b"\xe9tag", b"a b", b"", b"Range", b"X_1",
          # names that are proper prefixes of one another (case-insensitively): the map must keep them apart
          b"Accept-Encoding", b"accept-language", b"X", b"x-", b"Content", b"Content-Length-Hint", b"Cook", b"HOSTNAME"]
HVALS = [b"", b"1", b"a, b", b"x:y", b"\xff\x00z", b"v  w", b"localhost:80", b"bytes=0-1"]
BLANKS = [b"", b" ", b"  ", b"\t", b" \t"]
# headers a server could be tempted to act on by itself: this library gives them no meaning of their own
SEMANTIC = [(b"Expect", b"100-continue"), (b"expect", b"100-Continue"), (b"Connection", b"keep-alive"), (b"Connection", b"close"),
            (b"Connection", b"Upgrade"), (b"Upgrade", b"websocket"), (b"Transfer-Encoding", b"chunked"), (b"TE", b"trailers"),
            (b"Content-Encoding", b"gzip"), (b"Content-Type", b"multipart/form-data; boundary=x"), (b"If-None-Match", b"*"),
            (b"Date", b"Sun Nov  6 08:49:37 1994"), (b"Cookie", b"a=\"x   y\"\tz")]


def rand_headers(rng, maxn=5):
    """list of (name, value, rawline)"""
    out = []
    for _ in range(rng.range(0, maxn)):
        n = rng.choice(HNAMES)
        v = rng.choice(HVALS)
        if rng.chance(1, 5):
            n, v = rng.choice(SEMANTIC)
        line = rng.choice(BLANKS) + n + rng.choice(BLANKS) + b":" + rng.choice(BLANKS) + v + rng.choice(BLANKS)
        out.append((n, v, line))
    return out


def trimmed(b):
    return b.strip(b"\t\n\x0b\x0c\r ")


def build_head(method, target, version, hdr_lines):
    return method + b" " + target + b" " + version + b"".join(CRLF + l for l in hdr_lines)


def valid_request(rng, body_len=None, with_cl=True):
    """a request in the C01 class; returns dict"""
    m, code = rng.choice(METHODS)
    raw, decoded, pairs = class_target(rng)
    hs = [h for h in rand_headers(rng) if h[0].lower() != b"content-length" and b"\x00" not in h[1]]
    lines = [h[2] for h in hs]
    sent = [(h[0], h[1]) for h in hs]
    cl = -1
    if with_cl:
        n = body_len if body_len is not None else rng.range(0, 6)
        name = rng.choice([b"Content-Length", b"content-length", b"CONTENT-LENGTH"])
        val = rng.choice([b"%d", b"%d", b"0%d", b"+%d"]) % n
        pos = rng.range(0, len(lines))
        lines.insert(pos, name + b": " + val)
        sent.insert(pos, (name, val))
        cl = n
    ver = rng.choice([b"HTTP/1.0", b"HTTP/1.1"])
    head = build_head(m, raw, ver, lines)
    return {"head": head, "method": code, "raw": raw, "path": decoded, "query": pairs, "sent": sent, "cl": cl}


def malformed_heads(rng, n):
    """near misses of the grammar + junk"""
    outs = []
    base_t = b"/x"
    fixed = [
        b"", b" ", b"GET", b"GET /", b"GET / ", b"GET /  HTTP/1.1", b"GET  / HTTP/1.1", b" GET / HTTP/1.1", b"GET / HTTP/1.1 ",
        b"GET / HTTP/1.2", b"GET / HTTP/1.", b"GET / HTTP/1.10", b"GET / http/1.1", b"GET / HTTP/2.0", b"GET / HTTP/0.9", b"get / HTTP/1.1",
        b"GETT / HTTP/1.1", b"GE / HTTP/1.1", b"PATCH / HTTP/1.1", b"GET / x HTTP/1.1", b"GET\t/\tHTTP/1.1",
        b"GET / HTTP/1.1\r\nNoColon", b"GET / HTTP/1.1\r\nA: b\r\nNoColon", b"GET / HTTP/1.1\r\n", b"GET / HTTP/1.1\r\n \r\nA: b",
        b"\r\nGET / HTTP/1.1", b"GET / HTTP/1.1\nA: b", b"GET / HTTP/1.1\rA: b", b"GET / HTTP/1.1\r\nA: b\nB", b"BOGUS",
        b"GET / HTTP/1.1\r\n: v", b"GET / HTTP/1.1\r\n:", b"OPTIONS * HTTP/1.1", b"CONNECT a:1 HTTP/1.1", b"GET http://[::1 HTTP/1.1",
        b"GET //x:y/ HTTP/1.1", b"GET /%zz HTTP/1.1", b"GET /\x00 HTTP/1.1", b"GET /a\x00b HTTP/1.1\r\nA: b", b"GET /%FF HTTP/1.1",
        b"GET ? HTTP/1.1", b"GET # HTTP/1.1", b"GET /a#f?x HTTP/1.1", b"GET http://h/p?q=1 HTTP/1.1", b"GET x HTTP/1.1", b"GET :80 HTTP/1.1",
    ]
    outs += fixed
    # targets whose validity is entirely QUrl's business: authority forms with odd hosts/ports/userinfo, scheme-like prefixes.
    # Some are valid, some are not: the tabulated QUrl answer decides, and the parser must agree with it in both directions.
    odd = [b"//", b"///", b"//..", b"//../secret.txt", b"//-/index.html", b"//a..b/upload", b"//a-/", b"//-a/", b"//a_b/", b"//A/x",
           b"//1.2.3/", b"//1.2.3.4.5/", b"//.a/", b"//a./", b"//~", b"//a~b/", b"//a:/", b"//:80/", b"//a:65536/", b"//a:0080/p",
           b"//u@h/", b"//@/", b"//h/%", b"//h/a%2Fb", b"/:", b"x:/y", b"a:b", b"1:b", b"/a:b", b"//h?q", b"//h#f", b"//[::1]/", b"//[v1.x]/",
           b"//xn--/", b"//a.b-/c", b"//a--b/", b"//0x7f.1/"]
    for j, t in enumerate(odd):
        outs.append(b"GET " + t + b" HTTP/1.1")
        outs.append(METHODS[j % len(METHODS)][0] + b" " + t + b" HTTP/1.0")
    for m, _ in METHODS:                      # a NUL byte inside or around the method token (C-string comparisons stop there)
        for tok in (m + b"\x00", m + b"\x00X", b"\x00" + m, m[:-1] + b"\x00" + m[-1:], m + b"\x00" + m):
            outs.append(tok + b" /p HTTP/1.1")
    outs += [b"GET /p HTTP/1.1\x00", b"GET /p HTTP/1.1\x00X", b"GET /p\x00 HTTP/1.1", b"GET /p HTTP/1.0\x00\r\nA: b", b"GET /p HTTP/1.1\r\nA\x00: b", b"GET /p HTTP/1.1\r\nA: b\x00c"]
    for m, _ in METHODS:                      # every method with a target that only QUrl refuses
        for t in (b"//../secret.txt", b"//-/x", b"//a:b/", b"//["):
            outs.append(m + b" " + t + b" HTTP/1.1")
    for j, (hn, hv) in enumerate(SEMANTIC):   # refused heads that carry headers a server might act on before it has judged the target
        t = (b"//[::1/upload", b"//a:b/", b"/%zz%", b"//-/x")[j % 4]
        outs.append(METHODS[j % len(METHODS)][0] + b" " + t + b" HTTP/1.1\r\n" + hn + b": " + hv + b"\r\nContent-Length: 3")
        outs.append(b"POST /x HTTP/1.2\r\n" + hn + b": " + hv)
    for _ in range(max(0, n // 8)):
        host = rng.bytes(rng.range(0, 6), b"ab.-_~:@0189Z")
        outs.append(rng.choice(METHODS)[0] + b" //" + host + rng.choice([b"", b"/", b"/p", b"/p?q=1"]) + b" HTTP/1.1")
    for m, _ in METHODS:
        outs.append(m + b" " + base_t + b" HTTP/1.1")
        outs.append(m[:-1] + b" " + base_t + b" HTTP/1.1")
        outs.append(m + b"X " + base_t + b" HTTP/1.1")
        outs.append(m.lower() + b" " + base_t + b" HTTP/1.0")
    while len(outs) < n:
        k = rng.below(4)
        if k == 0:
            outs.append(rng.bytes(rng.range(0, 12), b"GET /HP1.0:\r\n x"))
        elif k == 1:
            r = valid_request(rng)
            h = bytearray(r["head"])
            if h:
                i = rng.below(len(h))
                op = rng.below(3)
                if op == 0:
                    del h[i]
                elif op == 1:
                    h.insert(i, rng.choice(b" :\r\nX"))
                else:
                    h[i] = rng.choice(b" :\r\nx\x00")
            outs.append(bytes(h))
        elif k == 2:
            outs.append(rng.bytes(rng.range(0, 10)))
        else:
            m, _ = rng.choice(METHODS)
            outs.append(m + rng.choice([b" ", b"  ", b""]) + b"/p" + rng.choice([b" ", b"  ", b""]) + rng.choice([b"HTTP/1.1", b"HTTP/1.0", b"HTTP/1.2", b"HTTP/1.1 "]) +
                        rng.choice([b"", b"\r\nA:b", b"\r\nA", b"\r\n\r", b"\n\r\nA:b"]))
    return outs


def head_target(head):
    """target token as the parser would extract it (None when there is no 3-part request line)"""
    first = head.split(CRLF)[0]
    parts = first.split(b" ", 2)
    return parts[1] if len(parts) == 3 else None


def oracle(ctx, targets):
    """( version urltable ) for the given raw targets"""
    ts = sorted(set(t for t in targets if t is not None))
    ver = ctx["probe"]("version", [[]])[0][0]
    tab = []
    res = ctx["probe"]("urlprobe", [[t] for t in ts])
    for t, r in zip(ts, res):
        tab.append([t, r[0], r[1], r[2]])
    return ver, tab


def env_for(ver, tab, targets):
    want = set(t for t in targets if t is not None)
    return [ver, [row for row in tab if row[0] in want]]


def partitions_for(rng, stream, tier, exhaustive_tail=0):
    """segmentations: boundary-biased random ones; plus all partitions of the last
    [exhaustive_tail] bytes (with the prefix in one piece)"""
    outs = []
    n = len(stream)
    if exhaustive_tail and n:
        k = min(exhaustive_tail, n)
        pre, tail = stream[:n - k], stream[n - k:]
        for parts in all_partitions(tail):
            outs.append(([pre] if pre else []) + parts)
            if pre:  # also with the cut between prefix and tail absent
                outs.append([pre + parts[0]] + parts[1:])
    else:
        outs.append([stream] if n else [])
        if n <= 2000:
            outs.append([stream[i:i + 1] for i in range(n)])
        else:   # long stream: single bytes around the head and at the end, 1 KiB blocks in between
            outs.append([stream[i:i + 1] for i in range(400)] + [stream[i:i + 1024] for i in range(400, n - 200, 1024)][:-1]
                        + [stream[400 + 1024 * ((n - 600 - 1) // 1024):n - 200]] + [stream[i:i + 1] for i in range(n - 200, n)])
        for _ in range(3 if tier == "quick" else 8):
            outs.append(rng.partition(stream))
    return outs
