"""vlib.py — value encoding shared by generators and check.py, plus the one PRNG.

Values:  int -> i<dec>, bytes -> x<hex>, list/tuple -> ( v* )
"""
import hashlib


def enc(v):
    if isinstance(v, bool):
        return "i1" if v else "i0"
    if isinstance(v, int):
        return "i%d" % v
    if isinstance(v, (bytes, bytearray)):
        return "x" + bytes(v).hex()
    if isinstance(v, str):
        return "x" + v.encode("latin-1").hex()
    if isinstance(v, (list, tuple)):
        return "( " + "".join(enc(x) + " " for x in v) + ")"
    raise TypeError(repr(v))


def dec(text):
    toks = text.split()
    pos = [0]

    def p():
        t = toks[pos[0]]
        pos[0] += 1
        if t == "(":
            out = []
            while toks[pos[0]] != ")":
                out.append(p())
            pos[0] += 1
            return out
        if t[0] == "i":
            return int(t[1:])
        if t[0] == "x":
            return bytes.fromhex(t[1:])
        raise ValueError(t)

    return p()


class Rng:
    """xorshift64* — every random choice of a run derives from one seed."""

    def __init__(self, seed):
        h = hashlib.sha256(("verif-%d" % seed).encode()).digest()
        self.s = int.from_bytes(h[:8], "big") or 0x9E3779B97F4A7C15

    def next(self):
        x = self.s
        x ^= (x >> 12)
        x ^= (x << 25) & 0xFFFFFFFFFFFFFFFF
        x ^= (x >> 27)
        self.s = x
        return (x * 0x2545F4914F6CDD1D) & 0xFFFFFFFFFFFFFFFF

    def below(self, n):
        return self.next() % n if n > 0 else 0

    def range(self, a, b):
        """inclusive"""
        return a + self.below(b - a + 1)

    def choice(self, xs):
        return xs[self.below(len(xs))]

    def chance(self, num, den):
        return self.below(den) < num

    def bytes(self, n, alphabet=None):
        if alphabet is None:
            return bytes(self.below(256) for _ in range(n))
        return bytes(self.choice(alphabet) for _ in range(n))

    def shuffle(self, xs):
        xs = list(xs)
        for i in range(len(xs) - 1, 0, -1):
            j = self.below(i + 1)
            xs[i], xs[j] = xs[j], xs[i]
        return xs

    def partition(self, data, maxparts=None):
        """random partition of bytes into non-empty segments (boundary-biased)"""
        n = len(data)
        if n == 0:
            return []
        mode = self.below(4)
        cuts = set()
        if mode == 0 and n <= 2000:
            cuts = set(range(1, n))  # byte by byte
        elif mode == 0:
            # long stream: byte by byte at both ends, blocks of 1..4096 bytes in between (keeps schedules below a few thousand steps)
            cuts = set(range(1, 300)) | set(range(n - 300, n))
            c = 300
            while c < n - 300:
                cuts.add(c)
                c += self.range(1, 4096)
        elif mode == 1:
            pass  # single segment
        else:
            k = self.range(1, min(6, n))
            for _ in range(k):
                cuts.add(self.range(1, n - 1) if n > 1 else 1)
        cuts = sorted(c for c in cuts if 0 < c < n)
        if maxparts and len(cuts) + 1 > maxparts:
            cuts = cuts[: maxparts - 1]
        out = []
        prev = 0
        for c in cuts + [n]:
            out.append(data[prev:c])
            prev = c
        return out


def all_partitions(data):
    """every composition of data into non-empty consecutive segments"""
    n = len(data)
    if n == 0:
        yield []
        return
    for mask in range(1 << (n - 1)):
        out = []
        prev = 0
        for i in range(n - 1):
            if mask >> i & 1:
                out.append(data[prev:i + 1])
                prev = i + 1
        out.append(data[prev:])
        yield out
