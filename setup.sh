#!/bin/bash
# setup.sh — offline build of the framework: Coq development (full .vo), extraction, OCaml driver.
# The C++ harness is (re)built by every check from /repo's working tree.
set -e
cd "$(dirname "$0")"
cd coq
ls *.v | sort > .vfiles.tmp
coq_makefile -f _CoqProject -o Makefile $(cat .vfiles.tmp) > /dev/null
tr '\n' '\n' < .vfiles.tmp | sed -e ':a' -e 'N' -e '$!ba' -e 's/\n$//' > .vfiles; rm -f .vfiles.tmp
timeout 3000 make -j16
cd ../ocaml
cp ../coq/model.ml ../coq/model.mli .
ocamlfind ocamlopt -w -a -O3 model.mli model.ml driver.ml -o driver
python3 - <<'PY'
import hashlib
h = hashlib.sha256(open('../coq/model.ml','rb').read() + open('driver.ml','rb').read()).hexdigest()
open('.stamp','w').write(h)
PY
echo "setup ok"
